"""C10 - The generated task scripts run what the user described.  (DESIGN.md 4/C10)

Drive : real Popen executor (real _initialize/initialize with threads recorded,
        real Fork / MPIRun launch methods from their real constructors, real
        ResourceManager.find_launcher) on a hollow agent session; per case the
        real `_handle_task` writes <uid>.exec.sh / <uid>.launch.sh
        (_create_exec_script, _create_launch_script, _get_rp_env, _get_task_env,
        _get_prep_exec, _extend_pre_exec, _get_rank_ids, LaunchMethod.get_exec /
        _create_arg_string) and starts the launch script with the real
        subprocess.Popen call; bash runs it in a temp pilot sandbox.  The
        executable is a probe dumping argc/argv/env/cwd and leaving markers.
        Multi-rank tasks go through the real MPIRUN launch method and a fake
        `mpirun` that starts N copies of the exec script with PMIX_RANK=i.
Oracle: see run_case - argv, environment, RP_* variables, CUDA_VISIBLE_DEVICES,
        cwd, stdout/stderr files, pre < exe < post traces per rank, failing
        pre/post commands, exit codes.
"""
import os
import re
import shlex

from hypothesis import strategies as st

from . import boot                                    # noqa: F401
from .runner import CaseResult, Part, exc_sig
from . import c10_harness as H
from . import c10_named

PID  = 'C10'
RULE = ('cases = one task description (probe executable; 0-6 arguments and 0-4 environment '
        'variables built from literal chunks over a shell-hostile alphabet plus $VAR/${VAR}/'
        '`cmd`/$(cmd) units; stdout/stderr default, relative, absolute, with space/unicode; '
        'pre_exec/post_exec lists of export/trace/ok/failing commands, global and per-rank '
        'dict entries; ranks 1-3; cores/gpus per rank, CUDA/ROCm/none; OpenMP; exit codes; '
        'task sandbox default/custom/absolute; 3 pilot sandbox layouts; control addresses) '
        'whose generated scripts are executed by bash; non-trivial = an argument or '
        'environment value contains a shell-special character, or a per-rank pre/post entry '
        'exists, or a pre/post command fails; distinct = the whole case')
ASSUMPTIONS = [
    'bash (%s) and coreutils as installed execute the scripts; the probe script, the fake '
    'mpirun (N copies of the command with PMIX_RANK=i, exit code = first non-zero rank), '
    'prof/gtod = /bin/true and the fast `sleep` are harness code' % H.x_base.AgentExecutingComponent._shell,
    'hollow agent session (cfg/rcfg keys read by initialize() set by hand), threads of the '
    'executor recorded and never started, ResourceManager.create replaced by a holder of the '
    'real launch methods (real constructors, real find_launcher)',
    'task dict = real TaskDescription(...).verify().as_dict() after a msgpack round trip, '
    'slots as plain dicts in the Slot schema',
    'radical.utils (sh_quote, env_prep, TypedDict) as installed; get_version shim']
NOT_REACHED = [
    'named environments inside a full task run (the prepared script is sourced on its own, for every launch '
    'method class), services, startup_timeout (radical-pilot-control), pre/post_launch',
    'full task runs through launch methods other than FORK, MPIRUN and the Flux job shell; real MPI rank '
    'variables other than PMIX_RANK',
    'executable names with shell-special characters (used as given by design); NUL bytes; '
    'control characters other than tab/newline/CR; `$` forms other than $NAME, ${NAME}, $(cmd), '
    'lone `$` (documented to be expanded by the shell, ru.sh_quote)']
QUICK_JOBS = 1
SHRINK_STR = True      # token texts / names are shrunk too (normalise() repairs the rest)
BUDGET     = {'quick': 100, 'thorough': 1500}

# ------------------------------------------------------------------------------
# generator
#
SPECIAL = ' \t\n\r\'"\\*?[]{}~#&|;<>()!'          # makes a case non-trivial
PLAIN   = 'abZ09_=%^,:-./@+'
UNI     = ['\u00e9', '\u00df', '\u03bb', '\u4e2d', '\U0001f600', '\u00a0', '\u0301']
ALPHA   = list(SPECIAL) * 2 + list(PLAIN) + UNI

# expansion units: documented to be expanded (ru.sh_quote docstring)
UNITS = ['$RP_TASK_ID', '${RP_RANK}', '$RP_RANKS', '$' + H.BASE_VAR, '${%s}' % H.BASE_VAR,
         '$C10_NOT_SET', '`echo bt`', '$(echo ps)', '$']

RESERVED = {'PATH', 'PWD', 'OLDPWD', 'SHLVL', '_', 'IFS', 'HOME', 'LANG', 'SHELL', 'TERM',
            'UID', 'EUID', 'PPID', 'GROUPS', 'RANDOM', 'SECONDS', 'LINENO', 'OPTIND',
            'OPTARG', 'OPTERR', 'FUNCNAME', 'PIPESTATUS', 'HOSTNAME', 'HOSTTYPE', 'OSTYPE',
            'MACHTYPE', 'SHELLOPTS', 'DIRSTACK', 'COLUMNS', 'LINES', 'HISTCMD', 'REPLY',
            'ENV', 'TMPDIR', 'PS1', 'PS2', 'PS4', 'CDPATH', 'MAIL', 'MAILPATH', 'MAILCHECK',
            'OMP_NUM_THREADS', 'CUDA_VISIBLE_DEVICES', 'ROCR_VISIBLE_DEVICES', 'PMIX_RANK',
            'MPI_RANK', 'SRANDOM', 'EPOCHSECONDS', 'EPOCHREALTIME', 'TIMEFORMAT', 'TMOUT',
            'GLOBIGNORE', 'IGNOREEOF', 'INPUTRC', 'POSIXLY_CORRECT', 'PROMPT_COMMAND',
            'FCEDIT', 'FIGNORE', 'HISTFILE', 'HISTSIZE', 'EXECIGNORE', 'CHILD_MAX', 'EMACS',
            'INSIDE_EMACS', 'LD_PRELOAD', 'LD_LIBRARY_PATH', 'NLSPATH', 'TZ', 'SIG', 'RET',
            'D', 'R'}
RESERVED_PFX = ('RP_', 'BASH', 'COMP_', 'LC_', 'C10_', 'PMIX_', 'OMPI_', 'HIST', 'READLINE_')


# names the launch methods treat specially for *named environments* (get_env_blacklist: RP_*,
# OMPI_*, ...) but which a user may well describe for the task itself
USER_SPECIAL = ('RP_APP_MODE', 'OMPI_MCA_verif')


def _safe_name(n):
    if n in USER_SPECIAL:
        return n
    u = n.upper()
    if u in RESERVED or u.startswith(RESERVED_PFX) or n in ('sig', 'ret'):
        return 'v_' + n
    return n


NAME_1 = 'abcdefghijklmnopqrstuvwxyzABCDEFGHIJKLMNOPQRSTUVWXYZ_'
NAME_N = NAME_1 + '0123456789'


# All random choices are a function of ONE integer drawn by Hypothesis (a seed
# for random.Random): interactive draws cost ~30 ms per case, this costs 0.3 ms,
# and the runner never uses Hypothesis' shrinker (cases are minimised as data).
def g_chunk(rnd):
    return ''.join(rnd.choice(ALPHA) for _ in range(rnd.randint(1, 6)))


def g_token(rnd):
    if rnd.randrange(4) == 0:
        return ['u', rnd.randrange(len(UNITS))]
    return ['l', g_chunk(rnd)]


def g_value(rnd):
    """a value = list of tokens; [] is the empty string"""
    k = rnd.randrange(8)
    if k == 0:
        return []
    if k == 1:
        return [['l', ''.join(rnd.choice('abc019_-') for _ in range(rnd.randint(1, 5)))]]
    return [g_token(rnd) for _ in range(rnd.randint(1, 4))]


def g_name(rnd):
    n = rnd.choice(NAME_1) + ''.join(rnd.choice(NAME_N) for _ in range(rnd.randint(0, 7)))
    return _safe_name(n)


def g_cmd(rnd, pre):
    k = rnd.randrange(5 if pre else 3)
    if k <= 1:
        return ['trace']
    if k == 2:
        return ['ok', rnd.randrange(3)]
    return ['export', g_name(rnd), g_value(rnd)]


def g_prep(rnd, n_ranks, pre, allow_fail):
    """pre_exec / post_exec: list of ['g', cmd] and ['r', {rank: [cmd..]}, as_str]"""
    entries = []
    for _ in range(rnd.randint(0, 4)):
        if rnd.randrange(3) == 0:
            # n_ranks itself = an entry for a rank which does not exist
            ranks = rnd.sample(range(n_ranks + 1), rnd.randint(1, min(3, n_ranks + 1)))
            entries.append(['r', {str(r): [g_cmd(rnd, pre) for _ in range(rnd.randint(1, 2))]
                                  for r in sorted(ranks)},
                            rnd.random() < 0.5])      # single command given as plain str
        else:
            entries.append(['g', g_cmd(rnd, pre)])
    if allow_fail and entries:
        # construct a failing command somewhere
        i = rnd.randrange(len(entries))
        fail = ['fail', rnd.randrange(3)]
        if entries[i][0] == 'g':
            entries.insert(i, ['g', fail])
        else:
            k = sorted(entries[i][1])[0]
            entries[i][1][k].insert(rnd.randint(0, len(entries[i][1][k])), fail)
    return entries


def g_fname(rnd):
    kind = rnd.choice(['default', 'default', 'rel', 'abs'])
    if kind == 'default':
        return None
    cls  = rnd.choice(['plain', 'plain', 'plain', 'unicode', 'space'])
    base = ''.join(rnd.choice('abcXYZ019._-+,=') for _ in range(rnd.randint(1, 8)))
    if base[0] in '-.':
        base = 'f' + base
    if cls == 'unicode':
        base += rnd.choice(UNI[:5])
    elif cls == 'space':
        base += ' ' + ''.join(rnd.choice('ab1') for _ in range(rnd.randint(1, 3)))
    return {'kind': kind, 'name': base}


def gen_case(seed):
    import random
    rnd   = random.Random(seed)
    ranks = rnd.choice([1, 1, 1, 2, 3])
    case  = {
        'layout' : rnd.choice([0, 0, 1, 2]),
        'sandbox': rnd.choice(['default', 'default', 'rel', 'abs']),
        'ranks'  : ranks,
        'use_mpi': rnd.choice([None, None, None, True]) if ranks == 1 else None,
        'name'   : None if rnd.random() < 0.5 else
                   ''.join(rnd.choice('abcT019._- ') for _ in range(rnd.randint(1, 10))),
        'args'   : [g_value(rnd) for _ in range(rnd.randint(0, 6))],
        'env'    : [[g_name(rnd), g_value(rnd)] for _ in range(rnd.randint(0, 4))],
        'stdout' : g_fname(rnd),
        'stderr' : g_fname(rnd),
        'cores_per_rank': rnd.randint(1, 4),
        'threading': rnd.choice(['', '', 'OpenMP']),
        'gpus_per_rank': rnd.choice([0, 0, 1, 1, 2, 0.5, 0.25, 0.75, 0.125]),
        'gpu_type': rnd.choice(['CUDA', 'CUDA', '', 'ROCm']),
        'gpu_base': rnd.randint(0, 5),
        'exit'   : [rnd.choice([0, 0, 0, 1, 2, 3, 42, 127, 255]) for _ in range(3)],
        'ctrl'   : [rnd.randint(10000, 10100), rnd.randint(10000, 10100)],
        # the Flux path: the exec script is run per rank by the Flux job shell (no launch script)
        'flux'   : ranks >= 2 and rnd.random() < 0.35,
    }
    fail_where = rnd.choice(['', '', '', 'pre', 'post'])
    case['pre']  = g_prep(rnd, ranks, True,  fail_where == 'pre')
    case['post'] = g_prep(rnd, ranks, False, fail_where == 'post')
    case['sync'] = ranks > 1 and rnd.randrange(4) == 0
    # earlier tasks handled by the same executor (drawn last: the fields above keep their values)
    if rnd.randrange(4) == 0:
        case['env'].append([rnd.choice(USER_SPECIAL), g_value(rnd)])
    case['before'] = [rnd.choice(['export', 'export', 'fail', 'rank'])
                      for _ in range(rnd.choice([0, 0, 0, 1, 1, 2]))]
    return case


def cases():
    # four 16-bit draws: Hypothesis favours small / boundary integers, a single
    # wide integer repeats ~12% of the seeds across shards, this one < 1%
    word = st.integers(0, 2 ** 16 - 1)
    return st.tuples(word, word, word, word).map(
        lambda w: gen_case(w[0] | w[1] << 16 | w[2] << 32 | w[3] << 48))


def parts(tier):
    return [Part('named_environments', enum=c10_named.enum_cases),
            Part('task_scripts', cases(), quick=400, thorough=3500)]


# ------------------------------------------------------------------------------
# model
#
NAME_C  = set('abcdefghijklmnopqrstuvwxyzABCDEFGHIJKLMNOPQRSTUVWXYZ0123456789_')
AFTER_DOLLAR_UNSAFE = NAME_C | set('{([!?*@#$-\'"\\`')


def build(tokens):
    """token list -> the string the user wrote.  A `.` is put between an open
    `$` / `$NAME` and a following chunk that would change what it means, so
    every expansion unit keeps the meaning the model knows."""
    out = ''
    for tok in tokens:
        if not isinstance(tok, list) or len(tok) != 2:
            continue
        kind, val = tok
        if kind == 'u':
            text = UNITS[int(val) % len(UNITS)]
        else:
            text = str(val).replace('$', '').replace('`', '').replace('\x00', '')
        if not text:
            continue
        if out and _ends_open(out) and text[0] in AFTER_DOLLAR_UNSAFE:
            out += '.'
        out += text
    return out


def _ends_open(s):
    """the string ends in `$` or in `$NAME` (a following name char would extend it)"""
    if s.endswith('$'):
        return True
    m = re.search(r'\$[A-Za-z_][A-Za-z0-9_]*$', s)
    return bool(m)


def expand(s, env):
    """meaning of the string s when it is passed in double quotes with `"` and `\\`
    escaped (ru.sh_quote): everything literal except the documented expansions.
    Returns None for a form the model does not know."""
    out = ''
    i   = 0
    n   = len(s)
    while i < n:
        c = s[i]
        if c == '`':
            j = s.find('`', i + 1)
            if j < 0 or s[i + 1:j] != 'echo bt':
                return None
            out += 'bt'
            i = j + 1
        elif c == '$':
            rest = s[i + 1:]
            m = re.match(r'[A-Za-z_][A-Za-z0-9_]*', rest)
            if m:
                out += env.get(m.group(0), '')
                i += 1 + m.end()
            elif rest.startswith('{'):
                m = re.match(r'\{([A-Za-z_][A-Za-z0-9_]*)\}', rest)
                if not m:
                    return None
                out += env.get(m.group(1), '')
                i += 1 + m.end()
            elif rest.startswith('(echo ps)'):
                out += 'ps'
                i += 1 + len('(echo ps)')
            elif not rest or rest[0] not in AFTER_DOLLAR_UNSAFE:
                out += '$'
                i += 1
            else:
                return None
        else:
            out += c
            i += 1
    return out


def cmd_text(cmd, tag, cdir):
    """a user's pre/post_exec command as shell text"""
    k = cmd[0]
    if k == 'trace':
        return ('echo %s >> %s/dump/trace.$RP_RANK && echo "$RP_RANK %s" >> %s/dump/trace.all'
                % (tag, cdir, tag, cdir))
    if k == 'ok':
        return ['true', ':', 'test -d /'][int(cmd[1]) % 3]
    if k == 'fail':
        return ['false', 'test -d /nonexistent/c10', '(exit 3)'][int(cmd[1]) % 3]
    if k == 'export':
        # proper shell: single-quoted literal value
        return 'export %s=%s' % (cmd[1], shlex.quote(build(cmd[2])))
    raise ValueError(cmd)


def _valid_cmd(cmd):
    if not isinstance(cmd, list) or not cmd:
        return False
    if cmd[0] == 'trace':
        return True
    if cmd[0] in ('ok', 'fail'):
        return len(cmd) == 2 and isinstance(cmd[1], int)
    if cmd[0] == 'export':
        return (len(cmd) == 3 and isinstance(cmd[1], str) and isinstance(cmd[2], list)
                and re.fullmatch(r'[A-Za-z_][A-Za-z0-9_]*', cmd[1]) is not None
                and _safe_name(cmd[1]) == cmd[1])
    return False


def normalise(case):
    """repair what the minimiser may have broken; None = not a case"""
    if isinstance(case, dict) and case.get('kind') == 'named_env':
        return case if case.get('module') in c10_named.MODULES and case.get('cls') else None
    try:
        c = dict(case)
        for k, v in (('ranks', 1), ('layout', 0), ('sandbox', 'default'), ('use_mpi', None),
                     ('name', None), ('threading', ''), ('gpu_type', ''), ('sync', False),
                     ('stdout', None), ('stderr', None)):
            c.setdefault(k, v)
        for k in ('sandbox', 'threading', 'gpu_type'):
            c[k] = str(c[k] or '')
        if c['threading'] not in ('', 'OpenMP'):
            c['threading'] = ''
        if c['name'] is not None:
            c['name'] = re.sub(r'[^A-Za-z0-9._ -]', '', str(c['name'])) or None
        c['ranks'] = min(3, max(1, int(c['ranks'])))
        ex = [int(x) % 256 for x in c.get('exit', [])]
        c['exit'] = (ex + [0, 0, 0])[:3]
        ct = [int(x) for x in c.get('ctrl', [])]
        c['ctrl'] = (ct + [10001, 10002])[:2]
        c['args'] = [a for a in c.get('args', []) if isinstance(a, list)]
        c['env']  = [e for e in c.get('env', [])
                     if isinstance(e, list) and len(e) == 2 and isinstance(e[0], str)
                     and re.fullmatch(r'[A-Za-z_][A-Za-z0-9_]*', e[0])
                     and _safe_name(e[0]) == e[0] and isinstance(e[1], list)]
        for sig in ('pre', 'post'):
            ents = []
            for e in c.get(sig, []):
                if not isinstance(e, list) or len(e) < 2:
                    continue
                if e[0] == 'g' and _valid_cmd(e[1]) and (sig == 'pre' or e[1][0] != 'export'):
                    ents.append(['g', e[1]])
                elif e[0] == 'r' and isinstance(e[1], dict):
                    d = {str(k): [x for x in v if _valid_cmd(x)
                                  and (sig == 'pre' or x[0] != 'export')]
                         for k, v in e[1].items() if isinstance(v, list)}
                    d = {k: v for k, v in d.items() if v and k.isdigit()}
                    if d:
                        ents.append(['r', d, bool(e[2]) if len(e) > 2 else False])
            c[sig] = ents
        for k in ('stdout', 'stderr'):
            v = c.get(k)
            if v is not None and not (isinstance(v, dict) and v.get('name')
                                      and v.get('kind') in ('rel', 'abs')):
                c[k] = None
        c['before'] = [b for b in (c.get('before') or []) if b in ('export', 'fail', 'rank')][:2]
        c['cores_per_rank'] = max(1, int(c.get('cores_per_rank', 1)))
        c['gpu_base'] = max(0, int(c.get('gpu_base', 0)))
        if c.get('gpus_per_rank') not in (0, 1, 2, 0.5, 0.25, 0.75, 0.125):
            c['gpus_per_rank'] = 0
        return c
    except Exception:
        return None


# ------------------------------------------------------------------------------
def _classes(text):
    """input classes of a value, for signatures (stable, few)"""
    cls = []
    if '"' in text               : cls.append('dquote')
    if '\\' in text              : cls.append('backslash')
    if '$' in text or '`' in text: cls.append('expansion')
    if '\n' in text              : cls.append('newline')
    if "'" in text               : cls.append('squote')
    if any(c in text for c in ' \t\r'): cls.append('blank')
    if any(c in text for c in '*?[]{}~'): cls.append('glob')
    if any(c in text for c in '#&|;<>()!'): cls.append('meta')
    if any(ord(c) > 127 for c in text): cls.append('unicode')
    if text == ''                : cls.append('empty')
    return cls or ['plain']


def _first_class(text):
    return _classes(text)[0]


def run_case(case):
    if isinstance(case, dict) and case.get('kind') == 'named_env':
        return c10_named.run(case)
    res  = CaseResult()
    case = normalise(case)
    if case is None:
        return res
    _run_once(case, res)
    _bucket(case, res)
    return res


def _run_once(case, res):
    eng  = H.engine(case.get('layout', 0))
    cdir = eng.new_case_dir()
    obs  = None
    try:
        obs = _run(case, eng, cdir, res)
    finally:
        eng.cleanup(cdir, obs)


# clauses which do not depend on the task-environment section of the exec script
INDEPENDENT = ('rp_env:', 'script_unparsable:launch', 'launcher_choice', 'handle_task_raised')


def _bucket(case, res):
    """root-cause bucketing by a differential run: an environment value with an
    unescaped `"` (or a `\\` in front of a character that is special inside double
    quotes) garbles every line of the exec script up to the next `"`.  If a case
    with such a value fails, it is run again with `"` and `\\` taken out of the
    environment values: failures which are gone then (lost variables, arguments,
    traces, exit codes, unparsable script) are ONE finding named after the class
    of the offending value; failures which stay keep their own signature."""
    if not res.problems:
        return
    values = [build(v) for _, v in case['env']]
    if any('"' in v for v in values):
        taint = 'dquote'
    elif any(re.search(r'\\(["\\$`\n]|$)', v) for v in values):
        taint = 'backslash'
    else:
        return
    dep  = [(sig, m) for sig, m in res.problems if not sig.startswith(INDEPENDENT)]
    if not dep:
        return
    clean = dict(case)
    clean['env'] = [[k, [[t[0], str(t[1]).replace('"', '').replace('\\', '')] if t[0] == 'l' else t
                         for t in v if isinstance(t, list) and len(t) == 2]]
                    for k, v in case['env']]
    res2 = CaseResult()
    _run_once(clean, res2)
    stay   = set(sig for sig, _ in res2.problems)
    caused = [(sig, m) for sig, m in dep if sig not in stay]
    if caused:
        res.problems = [(sig, m) for sig, m in res.problems if (sig, m) not in caused] + \
                       [('env_value:%s' % taint, '[%s] %s' % caused[0])]


def _slots(case, n_ranks):
    gpr  = case['gpus_per_rank']
    base = case['gpu_base']
    cpr  = case['cores_per_rank']
    slots, gpus_of = [], []
    for r in range(n_ranks):
        if gpr >= 1:
            g = [{'index': base + r * int(gpr) + i, 'occupation': 1.0} for i in range(int(gpr))]
        elif gpr > 0:
            g = [{'index': base + r // max(1, int(1 / gpr)), 'occupation': gpr}]   # ranks share one GPU
        else:
            g = []
        gpus_of.append([x['index'] for x in g])
        slots.append({'node_name': 'localhost', 'node_index': 0, 'version': 1,
                      'cores': [{'index': r * cpr + i, 'occupation': 1.0} for i in range(cpr)],
                      'gpus': g, 'lfs': 0, 'mem': 0})
    return slots, gpus_of


def _run(case, eng, cdir, res):

    n_ranks = case['ranks']
    codes   = case['exit'][:n_ranks]
    probe   = eng.write_probe(cdir, codes)
    pub     = 'tcp://10.0.0.1:%d' % case['ctrl'][0]
    sub     = 'tcp://10.0.0.2:%d' % case['ctrl'][1]
    eng.set_control_addresses(pub, sub)

    args    = [build(a) for a in case['args']]
    env_in  = [(k, build(v)) for k, v in case['env']]

    # ---- description as the user writes it
    def render(sig):
        out, plan = [], [[] for _ in range(n_ranks)]      # plan[r] = [(kind, tag/..)]
        for i, ent in enumerate(case[sig]):
            if ent[0] == 'g':
                tag = '%s.%d' % (sig, i)
                out.append(cmd_text(ent[1], tag, cdir))
                for r in range(n_ranks):
                    plan[r].append((ent[1], tag))
            else:
                d = {}
                for k in sorted(ent[1]):
                    cmds = ent[1][k]
                    tags = ['%s.%d.%s.%d' % (sig, i, k, j) for j in range(len(cmds))]
                    texts = [cmd_text(c, t, cdir) for c, t in zip(cmds, tags)]
                    d[k] = texts[0] if (ent[2] and len(texts) == 1) else texts
                    if int(k) < n_ranks:
                        plan[int(k)].extend(zip(cmds, tags))
                out.append(d)
        return out, plan

    pre_exec,  pre_plan  = render('pre')
    post_exec, post_plan = render('post')

    pre_fails  = [any(c[0] == 'fail' for c, _ in pre_plan[r])  for r in range(n_ranks)]
    post_fails = [any(c[0] == 'fail' for c, _ in post_plan[r]) for r in range(n_ranks)]
    # a rank that dies in pre_exec never signals: syncing on it cannot end
    sync = bool(case.get('sync')) and n_ranks > 1 and not any(pre_fails)
    flux = bool(case.get('flux')) and n_ranks >= 2 and not case.get('before')
    if flux:
        sync = False

    td = {'executable'    : probe,
          'arguments'     : args,
          'environment'   : dict(env_in),
          'ranks'         : n_ranks,
          'cores_per_rank': case['cores_per_rank'],
          'gpus_per_rank' : case['gpus_per_rank'],
          'gpu_type'      : case['gpu_type'],
          'threading_type': case['threading'],
          'pre_exec'      : pre_exec,
          'post_exec'     : post_exec,
          'pre_exec_sync' : sync}
    if case.get('name'):
        td['name'] = case['name']
    if case.get('use_mpi') and n_ranks == 1:
        td['use_mpi'] = True

    abs_dir = cdir + '/io'
    io_path = {}
    for k in ('stdout', 'stderr'):
        v = case.get(k)
        if v is None:
            continue
        name = v['name'] + ('.e' if k == 'stderr' else '.o')     # never the same file
        td[k] = ('%s/%s' % (abs_dir, name)) if v['kind'] == 'abs' else name
        io_path[k] = v['kind']

    slots, gpus_of = _slots(case, n_ranks)

    # ---- labels / NT
    values   = args + [v for _, v in env_in]
    special  = any(any(c in SPECIAL for c in v) for v in values)
    per_rank = any(e[0] == 'r' for e in case['pre'] + case['post'])
    failing  = any(pre_fails) or any(post_fails)
    res.nontrivial = bool(special or per_rank or failing)
    res.label('ranks=%d' % n_ranks, 'layout=%d' % (case.get('layout', 0) % 3),
              'sandbox=%s' % case.get('sandbox', 'default'))
    for lab, on in (('arg_special', any(any(c in SPECIAL for c in a) for a in args)),
                    ('env_special', any(any(c in SPECIAL for c in v) for _, v in env_in)),
                    ('arg_empty', '' in args),
                    ('arg_unicode', any(any(ord(c) > 127 for c in a) for a in args)),
                    ('expansion_unit', any('$' in v or '`' in v for v in values)),
                    ('env_dquote_or_backslash', any('"' in v or '\\' in v for _, v in env_in)),
                    ('per_rank_entries', per_rank), ('pre_fail', any(pre_fails)),
                    ('post_fail', any(post_fails)), ('sync', sync),
                    ('gpu_cuda', bool(case['gpus_per_rank']) and case['gpu_type'] == 'CUDA'),
                    ('gpu_shared', 0 < case['gpus_per_rank'] < 1),
                    ('openmp', case['threading'] == 'OpenMP'),
                    ('exit_nonzero', any(codes)),
                    ('stdio_custom', bool(io_path)),
                    ('stdio_space', any(' ' in (case.get(k) or {}).get('name', '')
                                        for k in ('stdout', 'stderr'))),
                    ('no_args', not args)):
        if on:
            res.label(lab)

    # ---- drive the real code: earlier tasks of the same executor first
    eng.reset_platform()
    for k, kind in enumerate(case.get('before') or []):
        pobs = eng.run_predecessor(k, kind)
        if pobs['error'] is not None or pobs['hang']:
            res.fail(exc_sig('handle_task_raised:earlier_task', pobs['error'] or RuntimeError('hang')),
                     repr(pobs['error']))
            return pobs
        res.label('earlier_task:%s' % kind)
    if flux:
        res.label('flux_job_shell')
        obs = eng.run_task_flux(td, slots, case.get('sandbox', 'default'))
    else:
        obs = eng.run_task(td, slots, case.get('sandbox', 'default'))
    if obs['error'] is not None:
        res.fail(exc_sig('handle_task_raised', obs['error']), repr(obs['error']))
        return obs
    if obs['hang']:
        res.fail('script_did_not_end', 'launch script still running after %ss' % H.RUN_TIMEOUT)
        return obs

    uid, sbox = obs['uid'], obs['sbox']
    res.label('launcher=%s' % obs['launcher'])
    expect_lm = 'FORK' if (n_ranks == 1 and not td.get('use_mpi')) else 'MPIRUN'
    if obs['launcher'] != expect_lm and not flux:
        res.fail('launcher_choice', 'got %s expected %s' % (obs['launcher'], expect_lm))
        return obs

    ranks   = [H.read_rank(cdir, r) for r in range(n_ranks)]
    strays  = [f for f in os.listdir(cdir + '/dump')
               if f.startswith('argc.') and f[5:] not in [str(r) for r in range(n_ranks)]]
    if strays:
        res.fail('rank_id_wrong', 'probe ran with RP_RANK outside 0..%d: %s'
                 % (n_ranks - 1, strays))

    launch_out = H.read_text('%s/%s.launch.out' % (sbox, uid)) or ''
    err_file   = {None: '%s/%s.err' % (sbox, uid), 'rel': '%s/%s' % (sbox, td.get('stderr')),
                  'abs': td.get('stderr')}[io_path.get('stderr')]
    out_file   = {None: '%s/%s.out' % (sbox, uid), 'rel': '%s/%s' % (sbox, td.get('stdout')),
                  'abs': td.get('stdout')}[io_path.get('stdout')]
    err_text   = H.read_text(err_file)
    out_text   = H.read_text(out_file)
    diag = ' | launch.out: %r | stderr: %r' % (launch_out[-300:], (err_text or '')[-300:])

    # ---- a script bash cannot parse: one root cause, reported once
    for script, text in (('launch', launch_out), ('exec', err_text or '')):
        m = re.search(r'%s\.%s\.sh: line \d+: (syntax error|unexpected EOF)'
                      % (re.escape(uid), script), text)
        if m:
            cls = 'other'
            if script == 'launch':
                # only the stdout / stderr names reach the launch script
                if any(' ' in (case.get(k) or {}).get('name', '') for k in ('stdout', 'stderr')):
                    cls = 'stdio_name_with_space'
            else:
                for a in args:
                    if _first_class(a) != 'plain':
                        cls = 'arg_' + _first_class(a)
                        break
            res.fail('script_unparsable:%s:%s' % (script, cls),
                     '%s.%s.sh is not valid shell%s' % (uid, script, diag))
            return obs

    # ---- RP environment known to the model
    base_env = {'RP_TASK_ID': uid, 'RP_RANKS': str(n_ranks), H.BASE_VAR: H.BASE_VALUE}

    rank_rc = []
    for r in range(n_ranks):
        if obs['launcher'] == 'FORK':
            rank_rc.append(obs['rc'])
        else:
            t = H.read_text('%s/c10.rank.%d.rc' % (sbox, r))
            rank_rc.append(int(t) if t and t.strip().lstrip('-').isdigit() else None)

    exe_ran = []
    for r, o in enumerate(ranks):
        menv = dict(base_env, RP_RANK=str(r))
        should_run = not pre_fails[r]
        exe_ran.append(o['ran'])

        # -- traces: pre < exe < post, per-rank entries on their rank only,
        #    nothing after a failing command
        want = []
        dead = False
        for cmd, tag in pre_plan[r]:
            if cmd[0] == 'fail':
                dead = True
                break
            if cmd[0] == 'trace':
                want.append(tag)
        if not dead:
            want.append('exe')
            for cmd, tag in post_plan[r]:
                if cmd[0] == 'fail':
                    break
                if cmd[0] == 'trace':
                    want.append(tag)

        if should_run and not o['ran']:
            res.fail('exe_not_run',
                     'rank %d: executable never ran (rc %s)%s' % (r, rank_rc[r], diag))
            continue
        if not should_run and o['ran']:
            res.fail('exe_ran_after_failed_pre_exec', 'rank %d' % r)

        if o['trace'] != want:
            foreign = [t for t in o['trace'] if t != 'exe' and t not in
                       [tg for _, tg in pre_plan[r] + post_plan[r]]]
            if foreign:
                what = 'per_rank_entry_on_wrong_rank'
            elif sorted(o['trace']) == sorted(want):
                what = 'order'
            elif set(want) - set(o['trace']):
                what = 'command_missing'
            else:
                what = 'command_after_failure_or_repeated'
            res.fail('trace:%s' % what, 'rank %d: trace %s expected %s%s'
                     % (r, o['trace'], want, diag))

        # -- exit code of this rank's exec script
        rc = rank_rc[r]
        if pre_fails[r] or post_fails[r]:
            if rc == 0:
                res.fail('exit_code:zero_after_failed_%s' % ('pre_exec' if pre_fails[r]
                                                             else 'post_exec'),
                         'rank %d' % r)
        elif rc != codes[r]:
            res.fail('exit_code:not_the_executables',
                     'rank %d: script ended with %s, executable with %d%s'
                     % (r, rc, codes[r], diag))

        if not o['ran']:
            continue

        # -- argv
        if 'argv_count_mismatch' in o:
            res.fail('harness:argv_dump', str(o['argv_count_mismatch']))
        # expansion units only name RP_TASK_ID / RP_RANK / RP_RANKS / C10_* (never
        # a generated name), so every value is expanded in the same environment
        xenv     = menv
        env_d    = dict(env_in)                      # what the description holds
        env_want = {k: expand(v, xenv) for k, v in env_d.items()}
        pre_exports = {}
        for cmd, _ in pre_plan[r]:
            if cmd[0] == 'export':
                pre_exports[cmd[1]] = build(cmd[2])      # single-quoted: literal
        want_argv = [expand(a, xenv) for a in args]
        got_argv  = o['argv']
        if len(got_argv) != len(want_argv):
            cls = sorted(set(c for a in args for c in _classes(a)))
            res.fail('argv:count:%s' % ('empty' if 'empty' in cls else cls[0]),
                     'rank %d: argv %r expected %r' % (r, got_argv, want_argv))
        else:
            for a, w, g in zip(args, want_argv, got_argv):
                if w is None:
                    res.label('unmodelled_expansion')
                    continue
                if g != w:
                    res.fail('argv:value:%s' % _first_class(a),
                             'rank %d: argument %r arrived as %r expected %r' % (r, a, g, w))

        # -- described environment
        genv = o['env']
        leaked = sorted(k for k in genv if k.startswith('C10_PREV_'))
        if leaked:
            res.fail('env_from_earlier_task', 'rank %d sees %s, set by the pre_exec of an earlier task'
                     % (r, leaked))
        if genv.get('C10_PLATFORM_READY') != 'yes' and not pre_fails[r]:
            res.label('note:platform_pre_exec_not_in_env')
        for k, w in env_want.items():
            if w is None:
                res.label('unmodelled_expansion')
                continue
            if k in pre_exports:
                continue                 # the user's own pre_exec re-exports it
            if genv.get(k) != w:
                res.fail('env_value:%s' % _first_class(env_d[k]),
                         'rank %d: %s=%r described as %r (expected %r)'
                         % (r, k, genv.get(k), env_d[k], w))
        for k, w in pre_exports.items():
            if genv.get(k) != w:
                res.fail('pre_exec_export_lost', 'rank %d: %s=%r expected %r'
                         % (r, k, genv.get(k), w))

        # -- RP_* variables
        def want_var(name, value, sig=None):
            if genv.get(name) != value:
                res.fail('rp_env:%s' % (sig or name), 'rank %d: %s=%r expected %r'
                         % (r, name, genv.get(name), value))

        want_var('RP_TASK_ID',   uid)
        want_var('RP_TASK_NAME', case.get('name') or uid)
        want_var('RP_PILOT_ID',  eng.pid)
        want_var('RP_SESSION_ID', eng.sid)
        want_var('RP_RESOURCE',  eng.resource)
        want_var('RP_RANK',      str(r))
        want_var('RP_RANKS',     str(n_ranks))
        want_var('RP_CORES_PER_RANK', str(case['cores_per_rank']))
        want_var('RP_REGISTRY_ADDRESS', eng.session.reg_addr)
        want_var('RP_CONTROL_PUB_ADDRESS', pub)
        want_var('RP_CONTROL_SUB_ADDRESS', sub)
        try:
            gpr_ok = float(genv.get('RP_GPUS_PER_RANK', 'x')) == float(case['gpus_per_rank'])
        except ValueError:
            gpr_ok = False
        if not gpr_ok:
            res.fail('rp_env:RP_GPUS_PER_RANK', 'rank %d: %r expected %s'
                     % (r, genv.get('RP_GPUS_PER_RANK'), case['gpus_per_rank']))
        for name, path in (('RP_RESOURCE_SANDBOX', eng.rsbox), ('RP_SESSION_SANDBOX', eng.ssbox),
                           ('RP_PILOT_SANDBOX', eng.psbox), ('RP_TASK_SANDBOX', sbox)):
            got = genv.get(name)
            if not got or os.path.realpath(got) != os.path.realpath(path):
                res.fail('rp_env:%s' % name, 'rank %d: %s=%r expected %r (layout %s)'
                         % (r, name, got, path, case.get('layout')))

        # -- GPUs
        if case['gpus_per_rank'] and case['gpu_type'] == 'CUDA':
            w = ','.join(str(g) for g in gpus_of[r])
            if genv.get('CUDA_VISIBLE_DEVICES') != w:
                res.fail('cuda_visible_devices', 'rank %d: %r expected %r (slots gpus %s)'
                         % (r, genv.get('CUDA_VISIBLE_DEVICES'), w, gpus_of))
        if case['threading'] == 'OpenMP' and 'OMP_NUM_THREADS' not in pre_exports:
            if genv.get('OMP_NUM_THREADS') != str(case['cores_per_rank']):
                res.fail('omp_num_threads', 'rank %d: %r expected %d'
                         % (r, genv.get('OMP_NUM_THREADS'), case['cores_per_rank']))

        # -- cwd
        if os.path.realpath(o['cwd']) != os.path.realpath(sbox):
            res.fail('cwd_not_task_sandbox', 'rank %d: %r expected %r' % (r, o['cwd'], sbox))

    # ---- launch script exit code
    want_rc = None
    if all(x is not None for x in rank_rc):
        want_rc = next((x for x in rank_rc if x), 0)
        if obs['rc'] != want_rc:
            res.fail('exit_code:launch_script', 'launch script ended with %s, ranks with %s%s'
                     % (obs['rc'], rank_rc, diag))
    elif not any(s.startswith('exe_not_run') for s, _ in res.problems):
        res.fail('exit_code:rank_missing', 'rank exit codes %s%s' % (rank_rc, diag))

    # ---- stdout / stderr in the described files
    ran = [r for r in range(n_ranks) if exe_ran[r]]
    if ran:
        for kind, text, path, mark in (('stdout', out_text, out_file, 'OUT-%d'),
                                       ('stderr', err_text, err_file, 'ERR-%d')):
            lines = (text or '').split('\n')
            cls = io_path.get(kind, 'default')
            if ' ' in (case.get(kind) or {}).get('name', ''):
                cls += '_name_with_space'
            if text is None:
                res.fail('%s_file_missing:%s' % (kind, cls), '%r does not exist%s' % (path, diag))
            elif any((mark % r) not in lines for r in ran):
                res.fail('%s_content:%s' % (kind, cls), '%r holds %r, expected markers of ranks %s'
                         % (path, text[-300:], ran))
            elif kind == 'stdout' and sorted(l for l in lines if l) != sorted(mark % r for r in ran):
                res.fail('stdout_content:extra', '%r holds %r' % (path, text[-300:]))

    # ---- rank sync: no executable before every rank finished its pre_exec
    if sync and all(exe_ran):
        allt = (H.read_text(cdir + '/dump/trace.all') or '').split('\n')[:-1]
        first_exe = next((i for i, l in enumerate(allt) if l.endswith(' exe')), None)
        last_pre  = max([i for i, l in enumerate(allt) if ' pre.' in l] or [-1])
        if first_exe is not None and last_pre > first_exe:
            res.fail('sync:exe_before_all_pre_exec', 'global trace %s' % allt)

    return obs
