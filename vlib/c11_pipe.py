"""C11 helper: the four real staging components, hollow, over one in-memory net.

Real code that runs: TaskManager.submit_tasks -> Task.__init__ ->
expand_description; Pilot.__init__ + Session._get_*_sandbox (sandbox URLs);
TMGRSchedulingComponent._assign_pilot (unbound, on a 4-field stand-in);
BaseComponent.__init__/_initialize/work_cb/advance; the `initialize`, `work`,
`_work`, `_handle_task*` of the four stagers; StagingHelper with the backend the
installation selects.

Harness stand-ins (trusted): the hops between the components, i.e. what the
tmgr scheduler (state advance), Agent_0._proxy_input_cb/_proxy_output_cb (queue
to queue) and agent scheduler + executor (see `execute`) do to a task dict.
"""
import os
import sys
import types
import tempfile
import threading as mt

from . import boot
from .hollow import HollowSession, HollowPmgr, hollow_tmgr, real_pilot, comp_cfg

import radical.utils           as ru
import radical.pilot.states    as rps
import radical.pilot.constants as rpc
import radical.pilot.utils     as rpu
import radical.pilot.utils.component as rpu_component

_ru_atfork = sys.modules[ru.atfork.__module__]

from radical.pilot.tmgr.scheduler.base          import TMGRSchedulingComponent
from radical.pilot.tmgr.staging_input.default   import Default as TmgrIn
from radical.pilot.tmgr.staging_output.default  import Default as TmgrOut
from radical.pilot.agent.staging_input.default  import Default as AgentIn
from radical.pilot.agent.staging_output.default import Default as AgentOut

# tmgr staging input creates its tarballs with tempfile.NamedTemporaryFile():
# keep them (and the ones it leaks when a tarball source is missing) in scratch
tempfile.tempdir = os.path.join(boot.SCRATCH, 'tmp')
os.makedirs(tempfile.tempdir, exist_ok=True)

PID = 'pilot.0000'


def _build(cls, base, session, uid):
    comp = cls.__new__(cls)
    base.__init__(comp, comp_cfg(session, uid), session)
    comp._initialize()               # real: publishers, control cb, initialize()
    return comp


class Pipe(object):

    def __init__(self, client_dir, remote_dir, pre_stage=None):
        self._n_comp = len(rpu_component._components)
        self.sess  = HollowSession(sandbox=client_dir)
        self.net   = self.sess.net
        self.tmgr  = hollow_tmgr(self.sess)
        # the hollow tmgr's state subscriber is not part of this property (C06)
        for sub in self.tmgr._subscribers.values():
            sub.stop()

        pilot = real_pilot(HollowPmgr(self.sess), PID, sandbox=remote_dir)
        # the application may have used the pilot for pilot-level staging before it hands it to
        # the task manager (real Pilot.stage_in; the pilot manager's transfer request is recorded)
        self.pre_targets = None
        if pre_stage:
            sent = []
            pilot._pmgr._pilot_staging_input = lambda pid, sds: sent.append((pid, sds))
            self.pre_targets = [str(t) for t in pilot.stage_in(
                [{'source': 'client:///%s' % name,
                  'target': name if loc == 'rel' else '%s:///%s' % (loc, name),
                  'action': 'Transfer'} for loc, name in pre_stage])]
        self.pilot = pilot.as_dict()     # what add_pilots hands to the scheduler

        self.sess._reg['cfg.session_sandbox'] = \
            str(self.sess._get_session_sandbox(self.pilot))

        self.sched = types.SimpleNamespace(_log=boot.LOG, _session=self.sess,
                                           _tasks_lock=mt.RLock(), _tasks={})

        s = self.sess
        self.tin  = _build(TmgrIn,   rpu.ClientComponent, s, 'tmgr.0000.staging.input.0000')
        self.ain  = _build(AgentIn,  rpu.AgentComponent,  s, 'agent_0.staging.input.0000')
        self.aout = _build(AgentOut, rpu.AgentComponent,  s, 'agent_0.staging.output.0000')
        self.tout = _build(TmgrOut,  rpu.ClientComponent, s, 'tmgr.0000.staging.output.0000')
        self.backend = type(self.tin._stager._backend).__name__

        # the tmgr input stager learns pilots the way it does in production
        self.tmgr.publish(rpc.CONTROL_PUBSUB, {'cmd': 'add_pilots',
                          'arg': {'pilots': [self.pilot], 'tmgr': self.tmgr.uid}})

    def close(self):
        """forget this case's objects in two module-level registries (memory
        and fork speed, nothing else): BaseComponent.__init__ lists every
        component for its at-fork hook, TaskManager.initialize registers three
        bound methods with radical.utils.atfork"""
        del rpu_component._components[self._n_comp:]
        for lst in (_ru_atfork._prepare_call_list, _ru_atfork._parent_call_list,
                    _ru_atfork._child_call_list):
            lst[:] = [f for f in lst if getattr(f, '__self__', None) is not self.tmgr]

    # -- queues ----------------------------------------------------------------
    def url(self, qname):
        return self.sess._reg['bridges.%s' % qname]['addr_put']

    def take(self, qname, sub='default'):
        return self.net.q_get(self.url(qname), sub)

    def give(self, qname, tasks, sub='default'):
        if tasks:
            self.net.q_put(self.url(qname), sub, tasks)

    # -- stages ----------------------------------------------------------------
    def submit(self, tds):
        """real submit_tasks; then the tmgr scheduler's part: bind to the pilot
        (real _assign_pilot) and hand on as TMGR_STAGING_INPUT_PENDING"""
        self.tmgr.submit_tasks(tds)
        tasks = self.take(rpc.TMGR_SCHEDULING_QUEUE)
        for t in tasks:
            TMGRSchedulingComponent._assign_pilot(self.sched, t, self.pilot)
            t['state'] = rps.TMGR_STAGING_INPUT_PENDING
        return tasks

    def tmgr_in(self, tasks):
        self.give(rpc.TMGR_STAGING_INPUT_QUEUE, tasks)
        self.tin.work_cb()
        return self.take(rpc.PROXY_TASK_QUEUE, PID)

    def agent_in(self, tasks):
        # Agent_0._proxy_input_cb: forward unchanged to the agent input stager
        self.give(rpc.AGENT_STAGING_INPUT_QUEUE, tasks)
        self.ain.work_cb()
        return self.take(rpc.AGENT_SCHEDULING_QUEUE)

    def agent_out(self, tasks):
        self.give(rpc.AGENT_STAGING_OUTPUT_QUEUE, tasks)
        self.aout.work_cb()
        return self.take(rpc.AGENT_COLLECTING_QUEUE)

    def tmgr_out(self, tasks):
        # Agent_0._proxy_output_cb: forward unchanged to the client's proxy queue
        self.give(rpc.PROXY_TASK_QUEUE, tasks, self.sess.uid)
        self.tout.work_cb()

    # -- observation -------------------------------------------------------------
    def published_states(self):
        """uid -> list of states published on the state pubsub, in order;
        uid -> type name of the exception recorded on the last full update"""
        out, exc = {}, {}
        for ev in self.net.log:
            if ev[0] != 'pub' or not isinstance(ev[3], dict):
                continue
            if ev[3].get('cmd') != 'update':
                continue
            for thing in ev[3].get('arg') or []:
                if isinstance(thing, dict) and thing.get('type') == 'task':
                    out.setdefault(thing['uid'], []).append(thing.get('state'))
                    if thing.get('exception'):
                        exc[thing['uid']] = str(thing['exception'])
        return out, exc

    def leftovers(self):
        return self.net.q_len()


def execute(task, target_state, exit_code):
    """what agent scheduler + executor leave on a task dict that has run
    (agent/executing/popen.py: stdout/stderr, exit_code, target_state) when
    they push it to the agent output stager"""
    os.makedirs(task['task_sandbox_path'], exist_ok=True)
    task['stdout']       = ''
    task['stderr']       = ''
    task['exit_code']    = exit_code
    task['target_state'] = target_state
    task['state']        = rps.AGENT_STAGING_OUTPUT_PENDING
    if target_state == rps.FAILED:
        task['exception']        = 'RuntimeError("task failed")'
        task['exception_detail'] = 'exit code: %s' % exit_code
    return task
