"""C08 - Cancel stops the named tasks and nothing else.  (DESIGN.md 4/C08)

Decided on the two half-pipelines that enact a cancel request on a pilot, plus the two
ends of the request's path:
  sched    : scheduler pair (C04 engine), cancel-heavy histories: named waiting tasks leave the
             wait pool and end CANCELED, bystanders are neither canceled nor lost, capacity is
             restored exactly (resources freed exactly once) at the end
  exec     : executor assembly (C07 engine), cancel-heavy schedules, DIFFERENTIAL: the same case
             is run with and without its cancel requests; named tasks whose request was
             completely handled before their process exited end CANCELED (killed, released once);
             bystanders end in the same state in both runs
  later    : a named task met later by a generic component's intake is canceled there instead
             of being processed, bystanders of the same bulk are processed
  request  : TaskManager.cancel_tasks issues a request naming exactly the given tasks, marked
             for forwarding to the pilots
"""
from hypothesis import strategies as st

from . import boot                                    # noqa: F401
from .runner import CaseResult, Part, exc_sig
from . import schedsim, schedgen, execsim, c07
from . import c08_raptor
from . import fluxsim

import radical.utils as ru
import radical.pilot.states    as rps
import radical.pilot.constants as rpc
import radical.pilot.utils     as rpu

PID  = 'C08'
RULE = ('sched: C04 histories with >=1 cancel op (named waiting tasks -> CANCELED and out of the wait pool; '
        'bystanders never canceled / lost; node map restored at the end); exec: C07 schedules with >=1 cancel, '
        'run twice (with / without the cancel requests): named tasks handled before exit -> CANCELED + killed + '
        'released once, bystanders same final state in both runs; later: generic component intake with a '
        'cancel list; request: TaskManager.cancel_tasks message.  non-trivial = the request arrives while >=1 '
        'named task is waiting or running and >=1 bystander shares its bulk / wait pool / executor; distinct = canonical case')
ASSUMPTIONS = ['see C04 (scheduler pair engine) and C07 (executor assembly engine)',
               'the whole client->agent pipeline is not assembled: the request path between TaskManager.cancel_tasks '
               'and the pilot components is C16\'s forwarding, the components are driven per half-pipeline']
NOT_REACHED = ['cancel while a task is in client- or agent-side staging components other than through the generic '
               'intake filter', 'real process kill (signals)']
BUDGET = {'quick': 140, 'thorough': 1500}


# ------------------------------------------------------------------------------
@st.composite
def sched_cases(draw):
    case = draw(schedgen.histories(max_ops=30, app=False, light=True, allow_bad=False))
    # make sure cancels are present and land at interesting places
    ops = case['ops']
    n_extra = draw(st.integers(1, 4))
    for _ in range(n_extra):
        pos = draw(st.integers(0, len(ops)))
        ops.insert(pos, ['cancel', draw(st.lists(st.integers(0, 30), min_size=1, max_size=3))])
    case['kind'] = 'sched'
    return case


@st.composite
def exec_cases(draw):
    case = draw(c07.schedules())
    nt = sum(len(b) for b in case['bulks'])
    mv = case['moves']
    for _ in range(draw(st.integers(1, 3))):
        pos = draw(st.integers(1, len(mv)))
        mv.insert(pos, ['cancel', draw(st.lists(st.integers(0, nt - 1), min_size=1, max_size=2))])
    # launch faults and timeouts make "same final state" depend on the schedule: keep them
    # out of the differential domain, they are C07's
    for b in case['bulks']:
        for s in b:
            s.pop('fault', None)
            s.pop('timeout', None)
            s.pop('startup_timeout', None)
    case['moves'] = [m for m in mv if m[0] != 'tick']
    case['kind'] = 'exec'
    return case


@st.composite
def later_cases(draw):
    n = draw(st.integers(1, 8))
    if draw(st.integers(0, 5)) == 0:
        # constructed: one request names a task and tasks whose uids contain its uid; the
        # component meets the short one first, the others in a later bulk
        return {'kind': 'later', 'n': 8, 'nested': True, 'single': False,
                'cancel': [[0, 1, 4], [draw(st.integers(0, 9))]],
                'bulks': [[0, draw(st.sampled_from([2, 7]))], [1, 4], [3, 5]],
                'order': [1] + draw(st.lists(st.integers(0, 1), min_size=2, max_size=6))}
    return {'kind': 'later', 'n': n,
            'bulks': draw(st.lists(st.lists(st.integers(0, n - 1), min_size=1, max_size=5, unique=True),
                                   min_size=1, max_size=3)),
            'cancel': draw(st.lists(st.lists(st.integers(0, n + 1), min_size=1, max_size=3),
                                    min_size=1, max_size=3)),
            'order': draw(st.lists(st.integers(0, 1), min_size=2, max_size=8)),
            'single': draw(st.booleans()),
            'nested': draw(st.integers(0, 2)) == 0}


@st.composite
def request_cases(draw):
    n = draw(st.integers(1, 8))
    return {'kind': 'request', 'n': n,
            'which': draw(st.one_of(st.none(), st.integers(0, n - 1),
                                    st.lists(st.integers(0, n - 1), min_size=1, max_size=n,
                                             unique=True))),
            # tasks which have finished already when the request is made
            'final': draw(st.lists(st.integers(0, n - 1), max_size=n, unique=True)),
            'via_task': draw(st.booleans())}        # Task.cancel() instead of the manager call


def parts(tier):
    return [Part('raptor_backlog', c08_raptor.cases(), quick=300, thorough=3000),
            Part('flux_pipeline', fluxsim.cases(prelaunch=False), quick=300, thorough=2500),
            Part('sched', sched_cases(), quick=150, thorough=900),
            Part('exec', exec_cases(), quick=180, thorough=1500),
            Part('exec_sweep', enum=lambda tier: (c for c in c07.sweep_cases(tier)
                                                   if any(m[0] == 'cancel' for m in c['moves']))),
            Part('exec_sweep2', enum=lambda tier: (c for c in c07.sweep2_cases(tier)
                                                    if any(m[0] == 'cancel' for m in c['moves']))),
            Part('later', later_cases(), quick=250, thorough=2000),
            Part('request', request_cases(), quick=100, thorough=500)]


def normalise(case):
    if case.get('kind') == 'fluxsim':
        return fluxsim.normalise(case)
    if case.get('kind') == 'raptor_backlog':
        return c08_raptor.normalise(case)
    if case.get('kind') == 'sched':
        return schedgen.normalise(case)
    if case.get('kind') in ('exec', 'sweep'):
        return c07.normalise(case)
    return case


# ------------------------------------------------------------------------------
def run_sched(case, res):
    sim = schedsim.run_history(case)
    s = sim.stats
    has_cancel = any(op[0] == 'cancel' for op in case['ops'])
    seen = set()
    for p, sig, msg in sim.problems:
        if (sig, msg) in seen:
            continue
        seen.add((sig, msg))
        if p == PID:
            res.fail('sched:' + sig, msg)
        elif has_cancel and p == 'C04' and sig == 'task_lost':
            uid = msg.split()[0]
            if uid not in sim.cancel_req:
                res.fail('sched:bystander_dropped', msg)
            else:
                res.fail('sched:named_task_dropped_without_final_state', msg)
        elif has_cancel and p == 'C03' and sig.startswith('capacity_not_restored'):
            res.fail('sched:resources_not_freed_exactly:' + sig.split(':', 1)[1], msg)
    bystanders_waiting = s['waited'] and len(sim.order) > len(sim.cancel_req)
    res.nontrivial = bool(s['canceled_waiting'] and bystanders_waiting) or \
        bool(s['cancel_running'] and len(sim.holders) + s['releases'] > 1)
    res.label('sched')
    if s['canceled_waiting']:
        res.label('sched:canceled_while_waiting')
    if s['cancel_running']:
        res.label('sched:canceled_while_running')


def _outcomes(sim):
    out = {}
    for u in sim.order:
        e = sim.ev[u]
        if e['pushed_tasks']:
            out[u] = e['pushed_tasks'][0].get('target_state')
        elif e['failed']:
            out[u] = 'FAILED*'
        elif e['canceled_pub']:
            out[u] = 'CANCELED*'
        else:
            out[u] = None
    return out


def run_exec(case, res):
    # (a process that exits by itself while its own launch is still in progress counts as
    # "already finished" for a request recorded before the spawn: see execsim.judge)
    sim = execsim.run_schedule(case)
    seen = set()
    for p, sig, msg in sim.problems:
        if p == PID and (sig, msg) not in seen:
            seen.add((sig, msg))
            res.fail('exec:' + sig, msg)
    # named tasks: freed exactly once, handed on exactly once
    for u in sim.order:
        if u in sim.cancel_req and u in sim.accepted:
            e = sim.ev[u]
            if e['unsched'] != 1:
                res.fail('exec:named_task_released_%s' % ('twice' if e['unsched'] > 1 else 'never'),
                         '%s: %s' % (u, e['seq']))
            if e['pushed'] + e['failed'] > 1:
                res.fail('exec:named_task_handed_on_twice', '%s: %s' % (u, e['seq']))
    # named + running => process killed through the launcher
    for u, phase in sim.must_cancel.items():
        if phase == 'running' and u not in sim.rm.launcher.cancelled \
                and not sim.exited_during_own_launch(u):
            pr = sim.proc_of.get(u)
            if pr is not None and not pr.killed:
                res.fail('exec:named_running_task_not_killed', u)
    if case.get('kind') == 'sweep':
        res.nontrivial = True
        res.label('exec:sweep')
        if len(sim.order) < 2:
            return
        res.label('exec:sweep:with_bystander')
    # differential: same case without the cancel requests
    base = dict(case)
    base['moves'] = [m for m in case['moves'] if m[0] != 'cancel']
    ref = execsim.run_schedule(base)
    a, b = _outcomes(sim), _outcomes(ref)
    idx = {u: i for i, u in enumerate(sim.order)}
    for u in sim.order:
        if u in sim.cancel_req:
            continue
        if a.get(u) != b.get(u):
            res.fail('exec:bystander_outcome_differs', '%s (task #%d): %s with the request, %s without'
                     % (u, idx[u], a.get(u), b.get(u)))
        ea, eb = sim.ev[u], ref.ev[u]
        if ea['unsched'] != eb['unsched']:
            res.fail('exec:bystander_release_differs', '%s: %d vs %d' % (u, ea['unsched'], eb['unsched']))
    named_live = [u for u, ph in sim.must_cancel.items()]
    bystanders = [u for u in sim.order if u not in sim.cancel_req]
    res.nontrivial = bool(named_live and bystanders)
    res.label('exec')
    for ph in set(sim.must_cancel.values()):
        res.label('exec:cancel_%s' % ph)
    if any(u not in sim.accepted for u in sim.order):
        res.label('exec:filtered_at_intake')


class _Later(rpu.AgentComponent):
    """a generic downstream component: one input, records what its worker gets"""
    def __init__(self, cfg, session):
        super().__init__(cfg, session)
        self.got = []

    def initialize(self):
        self.register_input(rps.AGENT_STAGING_OUTPUT_PENDING,
                            rpc.AGENT_STAGING_OUTPUT_QUEUE, self.work)

    def work(self, tasks):
        self.got.extend(t['uid'] for t in tasks)


def run_later(case, res):
    from .hollow import HollowSession, comp_cfg
    sess = HollowSession(module='pilot.0000')
    comp = _Later(comp_cfg(sess, 'agent_staging_output.0000'), sess)
    comp._initialize()
    net = sess.net
    url_q = sess._reg['bridges.%s' % rpc.AGENT_STAGING_OUTPUT_QUEUE]['addr_put']
    url_c = sess._reg['bridges.%s' % rpc.CONTROL_PUBSUB]['addr_pub']
    url_s = sess._reg['bridges.%s' % rpc.STATE_PUBSUB]['addr_pub']
    pub = sess.fakes.Publisher(rpc.CONTROL_PUBSUB, url=url_c)
    n = case['n']
    uids = ['task.%06d' % i for i in range(n + 2)]
    if case.get('nested'):
        # uids which contain each other: a raptor master and its workers, user-chosen names
        uids = ['raptor.0000', 'raptor.0000.0000', 'sim.1', 'sim.10', 'raptor.0000.0001', 'sim.100',
                'sim.11', 'w', 'w.a', 'w.a.b'][:n + 2]
        res.label('later:nested_uids')
    bulks = [list(b) for b in case['bulks']]
    cancels = [list(c) for c in case['cancel']]
    named, submitted, seen_before = set(), [], set()
    expect_cancel, expect_work = set(), set()
    for o in case['order'] + [0, 1] * (len(bulks) + len(cancels)):
        if o == 0 and bulks:
            b = [i for i in bulks.pop(0) if uids[i] not in submitted]
            if not b:
                continue
            tasks = [{'uid': uids[i], 'type': 'task', 'state': rps.AGENT_STAGING_OUTPUT_PENDING,
                      'description': {}, 'target_state': rps.DONE} for i in b]
            net.q_put(url_q, 'default', tasks)
            for i in b:
                submitted.append(uids[i])
                (expect_cancel if uids[i] in named else expect_work).add(uids[i])
            try:
                comp.work_cb()
            except Exception as e:          # noqa
                res.fail(exc_sig('later:intake_raised', e), repr(e))
                return
        elif o == 1 and cancels:
            c = cancels.pop(0)
            us = [uids[i % len(uids)] for i in c]
            arg = us[0] if (case.get('single') and len(us) == 1) else us
            pub.put(rpc.CONTROL_PUBSUB, {'cmd': 'cancel_tasks', 'arg': {'uids': arg}})
            for u in us:
                if u not in submitted:
                    named.add(u)
    canceled = set()
    for ev in net.log:
        if ev[0] == 'pub' and ev[1] == url_s and ev[3].get('cmd') == 'update':
            for t in ru.as_list(ev[3]['arg']):
                if t.get('state') == rps.CANCELED:
                    canceled.add(t['uid'])
        if ev[0] == 'cb_error':
            res.fail(exc_sig('later:control_cb_raised', ev[3]), repr(ev[3]))
    for u in expect_cancel:
        if u in comp.got:
            res.fail('later:named_task_processed', u)
        if u not in canceled:
            res.fail('later:named_task_not_canceled', u)
    for u in expect_work:
        if u not in comp.got:
            res.fail('later:bystander_not_processed', u)
        if u in canceled:
            res.fail('later:bystander_canceled', u)
    if len(comp.got) != len(set(comp.got)):
        res.fail('later:task_processed_twice', str(comp.got))
    res.nontrivial = bool(expect_cancel and expect_work)
    res.label('later')


def run_request(case, res):
    from .hollow import HollowSession, hollow_tmgr
    import radical.pilot as rp
    sess = HollowSession()
    tm = hollow_tmgr(sess)
    n = case['n']
    tasks = tm.submit_tasks([rp.TaskDescription({'uid': 'task.%06d' % i, 'executable': '/bin/true'})
                             for i in range(n)])
    url_c = sess._reg['bridges.%s' % rpc.CONTROL_PUBSUB]['addr_pub']
    pos = len(sess.net.log)
    w = case['which']
    if w is None:
        arg, want = None, [t.uid for t in tasks]
    elif isinstance(w, int):
        arg, want = tasks[w % n].uid, [tasks[w % n].uid]
    else:
        want = [tasks[i % n].uid for i in w]
        arg = list(want)
    import radical.pilot.states as rps
    final = set()
    for k, i in enumerate(case.get('final') or []):
        t = tasks[int(i) % n]
        tm._update_tasks([{'uid': t.uid, 'type': 'task',
                           'state': [rps.DONE, rps.FAILED, rps.CANCELED][k % 3]}])
        if t.state in rps.FINAL:
            final.add(t.uid)
    pos = len(sess.net.log)
    before = {t.uid: t.state for t in tasks}
    if case.get('via_task') and isinstance(w, int):
        tasks[w % n].cancel()
        res.label('request:Task.cancel')
    else:
        tm.cancel_tasks(arg)
    msgs = [ev[3] for ev in sess.net.log[pos:] if ev[0] == 'pub' and ev[1] == url_c
            and ev[3].get('cmd') == 'cancel_tasks']
    if len(msgs) != 1:
        res.fail('request:message_count', '%d cancel messages for one request' % len(msgs))
        return
    m = msgs[0]
    got = ru.as_list(m['arg'].get('uids'))
    if not set(got) <= set(want):
        res.fail('request:names_other_tasks', 'asked %s (finished already: %s), message names %s'
                 % (want, sorted(final), got))
    elif not set(want) - final <= set(got):
        res.fail('request:named_task_missing', 'asked %s, message names %s' % (want, got))
    if final:
        res.label('request:some_tasks_final')
        if set(want) <= final:
            res.label('request:all_named_tasks_final')
    if m.get('fwd') is not True:
        res.fail('request:not_marked_for_forwarding', str(m))
    for t in tasks:
        if t.uid not in want and t.state != before[t.uid]:
            res.fail('request:bystander_state_changed', t.uid)
    res.nontrivial = len(want) < n and n > 1
    res.label('request')


def run_case(case):
    res = CaseResult()
    k = case.get('kind')
    if k == 'raptor_backlog':
        return c08_raptor.run_case(case)
    if k == 'fluxsim':
        return fluxsim.run_case_for(PID, case)
    if k == 'sched':
        run_sched(case, res)
    elif k in ('exec', 'sweep'):
        run_exec(case, res)
    elif k == 'later':
        run_later(case, res)
    else:
        run_request(case, res)
    return res
