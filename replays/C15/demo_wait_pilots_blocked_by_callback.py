#!/venv/bin/python
"""demonstration for the C15 known finding (real threads, real clock; not part of the check):
wait_pilots(timeout=0.5) does not return while a user's pilot callback is running, because
PilotManager._update_pilot holds _pilots_lock while Pilot._update invokes the callback.
usage: PYTHONPATH=/verif /venv/bin/python replays/C15/demo_wait_pilots_blocked_by_callback.py
exit 1 = the wait call took (much) longer than its timeout"""
import sys, time, threading
sys.path.insert(0, '/verif')
from vlib import boot                                    # noqa
from vlib.hollow import HollowSession
from vlib.c15_hollow import hollow_pmgr, add_pilot
import radical.pilot.states as rps

pm    = hollow_pmgr(HollowSession())
pilot = add_pilot(pm, 'pilot.0000')
gate  = threading.Event()
pilot.register_callback(lambda *a, **k: gate.wait(5.0))          # a callback that takes 5 s

t = threading.Thread(target=lambda: pm._update_pilot({'uid': pilot.uid, 'type': 'pilot',
                                                       'state': rps.PMGR_LAUNCHING_PENDING}), daemon=True)
t.start()
time.sleep(0.2)                                                   # the callback is running now
t0 = time.time()
pm.wait_pilots([pilot.uid], timeout=0.5)
dt = time.time() - t0
gate.set()
print('wait_pilots(timeout=0.5) returned after %.1f s' % dt)
sys.exit(1 if dt > 2.0 else 0)
