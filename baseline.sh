#!/bin/bash
# runs the repository's stable baseline (guard OFF) and compares with BASELINE.json
unset RADICAL_PILOT_VERIF
OUT=$(mktemp /tmp/rpbase.XXXXXX.xml)
cd /repo && /venv/bin/python -m pytest -ra -q -p no:cacheprovider --timeout=900 --continue-on-collection-errors --junitxml=$OUT >/dev/null 2>&1
/venv/bin/python - "$OUT" <<'PY'
import sys, json, xml.etree.ElementTree as ET
base = set(json.load(open('/root/.vp/BASELINE.json'))['stable_pass'])
passed = set()
for tc in ET.parse(sys.argv[1]).getroot().iter('testcase'):
    if not any(c.tag in ('failure', 'error', 'skipped') for c in tc):
        passed.add('%s::%s' % (tc.get('classname'), tc.get('name')))
missing = sorted(base - passed)
print('baseline: %d/%d stable tests pass' % (len(base) - len(missing), len(base)))
for m in missing: print('  MISSING', m)
sys.exit(1 if missing else 0)
PY
rc=$?; rm -f "$OUT" /repo/rm_info.json; exit $rc   # (a Slurm unit test writes rm_info.json into its cwd)
